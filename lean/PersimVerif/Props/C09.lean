import PersimVerif.Lemmas.PLArithTools
import Mathlib.Algebra.Order.Field.Rat
import Mathlib.Tactic.NormNum

/-!
# C09 — landscape arithmetic is pointwise (and rejects mismatched operands)

All statements are about `PersimVerif.PLArith` (the model of `persim/landscapes/{auxiliary,exact,
approximate,tools}.py`) instantiated at an arbitrary linear ordered field `K` (so in particular at
`ℚ`, which contains every finite float, and at `ℝ`).  Nothing here is about floating point, and
nothing here can speak about aliasing: "operands are left untouched" is a test-only clause
(harness/props/c09.py), a functional model has no object identity.

Guards.  For one depth list the guard is the executable `wfDepth` (class `WF`): non-empty, ordinate
0 at both ends, abscissae non-decreasing where a zero-width step repeats the *same* point — this is
what the real constructor produces (a bar of zero length gives `[[1,0],[1,0],[1,0]]`), it contains
the strict class `PLBase.wellFormed` (`strict_class_contained`) and it is closed under every
operation.  `negDepth`/`mulDepth` need no guard at all.  For a grid landscape the guard is
`Grid.wf`: at least one row, `num_steps ≥ 1` samples in every row, `start ≤ stop` — what the
constructor and `np.array` guarantee.
-/
namespace PersimVerif.C09
open PersimVerif.PL PersimVerif.PLArith

set_option linter.unusedSectionVars false

variable {K : Type} [Field K] [LinearOrder K] [IsStrictOrderedRing K]

/-! ## exact landscapes: one depth -/

/-- **sum_eval**: the merged-slope sum of two well-formed depth lists is the pointwise sum of the
    two piecewise-linear functions, at every `t`. -/
theorem sum_eval (a b : List (K × K)) (ha : wfDepth a = true) (hb : wfDepth b = true) (t : K) :
    evalPL (slopeToPos (sumSlopes 0 0 (posToSlope a) (posToSlope b))) t = evalPL a t + evalPL b t :=
  (addDepth_spec a b ((wfDepth_iff a).mp ha) ((wfDepth_iff b).mp hb)).2.2 t

/-- … and the result is again well-formed, with strictly increasing abscissae. -/
theorem sum_wellFormed (a b : List (K × K)) (ha : wfDepth a = true) (hb : wfDepth b = true) :
    wfDepth (addDepth a b) = true ∧ ((addDepth a b).map Prod.fst).Pairwise (· < ·) := by
  obtain ⟨w, s, _⟩ := addDepth_spec a b ((wfDepth_iff a).mp ha) ((wfDepth_iff b).mp hb)
  exact ⟨(wfDepth_iff _).mpr w, s⟩

/-- **neg_eval** (no guard). -/
theorem neg_eval (a : List (K × K)) (t : K) : evalPL (negDepth a) t = -evalPL a t := evalPL_negDepth a t

/-- **smul_eval** (no guard). -/
theorem smul_eval (c : K) (a : List (K × K)) (t : K) : evalPL (mulDepth c a) t = c * evalPL a t :=
  evalPL_mulDepth c a t

/-- **div_eval**: the code's `self * (1.0 / other)`; guard = the code's own `other != 0`. -/
theorem div_eval (c : K) (hc : c ≠ 0) (a : List (K × K)) (t : K) :
    evalPL (mulDepth (1 / c) a) t = evalPL a t / c := by
  rw [evalPL_mulDepth]; field_simp

/-- **sub_eval**: `self + -other`. -/
theorem sub_eval (a b : List (K × K)) (ha : wfDepth a = true) (hb : wfDepth b = true) (t : K) :
    evalPL (addDepth a (negDepth b)) t = evalPL a t - evalPL b t := by
  have hb' := wf_negDepth b ((wfDepth_iff b).mp hb)
  rw [(addDepth_spec a (negDepth b) ((wfDepth_iff a).mp ha) hb').2.2 t, evalPL_negDepth]; ring

/-- negation and scalar multiples stay in the class -/
theorem scalar_wellFormed (c : K) (a : List (K × K)) (ha : wfDepth a = true) :
    wfDepth (negDepth a) = true ∧ wfDepth (mulDepth c a) = true :=
  ⟨(wfDepth_iff _).mpr (wf_negDepth a ((wfDepth_iff a).mp ha)),
   (wfDepth_iff _).mpr (wf_mulDepth c a ((wfDepth_iff a).mp ha))⟩

/-- the strict class of `PLBase.wellFormed` is contained in the guard -/
theorem strict_class_contained (l : List (K × K)) (h : wellFormed l = true) : wfDepth l = true :=
  (wfDepth_iff l).mpr (wf_of_wellFormed l h)

/-! ## exact landscapes: all depths (zip-longest) and the operators -/

/-- **missing_depth_zero**: `union_crit_pairs` is the depth-wise sum where a depth missing in one
    operand counts as the zero function; the result has `max` many depths, all well-formed. -/
theorem missing_depth_zero (as bs : List (List (K × K))) (ha : as.all wfDepth = true) (hb : bs.all wfDepth = true) :
    (unionCritPairs as bs).all wfDepth = true ∧ (unionCritPairs as bs).length = max as.length bs.length ∧
      ∀ k t, evalDepth (unionCritPairs as bs) k t = evalDepth as k t + evalDepth bs k t := by
  have ha' : AllWF as := fun d hd => (wfDepth_iff d).mp (List.all_eq_true.mp ha d hd)
  have hb' : AllWF bs := fun d hd => (wfDepth_iff d).mp (List.all_eq_true.mp hb d hd)
  obtain ⟨h1, h2, h3⟩ := unionCritPairs_spec as bs ha' hb'
  exact ⟨List.all_eq_true.mpr fun d hd => (wfDepth_iff d).mpr (h1 d hd), h2, h3⟩

/-- beyond the last depth of a landscape its function is 0 (what "missing depth" means) -/
theorem beyond_last_depth (cps : List (List (K × K))) (k : Nat) (hk : cps.length ≤ k) (t : K) :
    evalDepth cps k t = 0 := by simp [evalDepth, List.getElem?_eq_none hk]

/-- **`+`** on well-formed landscapes of equal degree succeeds and is pointwise at every depth and `t`. -/
theorem add_pointwise (p q : Exact K) (hp : p.wf = true) (hq : q.wf = true) (hd : p.homDeg = q.homDeg) :
    ∃ r, p.add q = .ok r ∧ r.wf = true ∧ r.homDeg = p.homDeg ∧
      r.cps.length = max p.cps.length q.cps.length ∧
      ∀ k t, evalDepth r.cps k t = evalDepth p.cps k t + evalDepth q.cps k t := by
  obtain ⟨r, e, w, d, l, v⟩ := Exact.add_spec p q ((Exact.wf_iff p).mp hp) ((Exact.wf_iff q).mp hq) hd
  exact ⟨r, e, (Exact.wf_iff r).mpr w, d, l, v⟩

theorem sub_pointwise (p q : Exact K) (hp : p.wf = true) (hq : q.wf = true) (hd : p.homDeg = q.homDeg) :
    ∃ r, p.sub q = .ok r ∧ r.wf = true ∧ r.homDeg = p.homDeg ∧
      r.cps.length = max p.cps.length q.cps.length ∧
      ∀ k t, evalDepth r.cps k t = evalDepth p.cps k t - evalDepth q.cps k t := by
  obtain ⟨r, e, w, d, l, v⟩ := Exact.sub_spec p q ((Exact.wf_iff p).mp hp) ((Exact.wf_iff q).mp hq) hd
  exact ⟨r, e, (Exact.wf_iff r).mpr w, d, l, v⟩

theorem neg_pointwise (p : Exact K) (hp : p.wf = true) :
    ∃ r, p.neg = .ok r ∧ r.wf = true ∧ r.homDeg = p.homDeg ∧ ∀ k t, evalDepth r.cps k t = -evalDepth p.cps k t := by
  obtain ⟨r, e, w, d, _, v⟩ := Exact.neg_spec p ((Exact.wf_iff p).mp hp)
  exact ⟨r, e, (Exact.wf_iff r).mpr w, d, v⟩

/-- `*` and `rmul` by a number -/
theorem smul_pointwise (c : K) (p : Exact K) (hp : p.wf = true) :
    ∃ r, p.mul (.num c) = .ok r ∧ r.wf = true ∧ r.homDeg = p.homDeg ∧
      ∀ k t, evalDepth r.cps k t = c * evalDepth p.cps k t := by
  obtain ⟨r, e, w, d, _, v⟩ := Exact.smul_spec c p ((Exact.wf_iff p).mp hp)
  exact ⟨r, e, (Exact.wf_iff r).mpr w, d, v⟩

/-- `/` by a non-zero number -/
theorem div_pointwise (c : K) (hc : c ≠ 0) (p : Exact K) (hp : p.wf = true) :
    ∃ r, p.div (.num c) = .ok r ∧ r.wf = true ∧ r.homDeg = p.homDeg ∧
      ∀ k t, evalDepth r.cps k t = evalDepth p.cps k t / c := by
  obtain ⟨r, e, w, d, _, v⟩ := Exact.sdiv_spec p c ((Exact.wf_iff p).mp hp) hc
  exact ⟨r, e, (Exact.wf_iff r).mpr w, d, v⟩

/-- **rejections** on the exact side: different degrees, zero divisor, non-number scalar. -/
theorem exact_rejections (p q : Exact K) :
    (p.homDeg ≠ q.homDeg → p.add q = .error .homDeg) ∧
    (p.homDeg ≠ q.homDeg → q.cps ≠ [] → p.sub q = .error .homDeg) ∧
    p.div (.num 0) = .error .divZero ∧
    p.div .other = .error .typeError ∧
    (p.wf = true → p.mul .other = .error .typeError) := by
  refine ⟨fun h => by simp [Exact.add, h], fun h hq => ?_, by simp [Exact.div, Exact.sdiv], rfl, fun hp => ?_⟩
  · have : q.neg = .ok ⟨q.homDeg, q.cps.map negDepth⟩ := by
      unfold Exact.neg; exact Exact.mk'_ok _ _ (by simpa using hq)
    unfold Exact.sub
    rw [this]
    show Exact.add p ⟨q.homDeg, q.cps.map negDepth⟩ = _
    simp [Exact.add, h]
  · obtain ⟨hne, hall⟩ := (Exact.wf_iff p).mp hp
    obtain ⟨d, ds, hds⟩ := List.exists_cons_of_ne_nil hne
    have hd : d ≠ [] := (hall d (by rw [hds]; simp)).ne
    have : (p.cps.all fun x => x.isEmpty) = false := by
      rw [hds]; simp [hd]
    simp [Exact.mul, this]

/-- **expr_denote**: for every expression tree over shared operands (every sequence of `+ − neg · /`
    applied to the same landscapes, results reused), if the operands are well-formed landscapes of one
    degree and no divisor is zero, `run` succeeds, the result is well-formed, and at every depth `k`
    and every `t` it evaluates to the pointwise expression `denote`. -/
theorem expr_denote (ρ : Nat → Exact K) (h : Nat) (e : Expr K)
    (hl : e.leavesAll (fun i => (ρ i).wf = true ∧ (ρ i).homDeg = h)) (hd : e.divisorsNonzero) :
    ∃ r, run ρ e = .ok r ∧ r.wf = true ∧ r.homDeg = h ∧ ∀ k t, evalDepth r.cps k t = denote ρ e k t := by
  have hl' : e.leavesAll (fun i => (ρ i).WF ∧ (ρ i).homDeg = h) := by
    clear hd
    induction e with
    | leaf i => exact ⟨(Exact.wf_iff _).mp hl.1, hl.2⟩
    | add e f ih1 ih2 => exact ⟨ih1 hl.1, ih2 hl.2⟩
    | sub e f ih1 ih2 => exact ⟨ih1 hl.1, ih2 hl.2⟩
    | neg e ih => exact ih hl
    | smul c e ih => exact ih hl
    | sdiv e c ih => exact ih hl
  obtain ⟨r, e1, w, d, v⟩ := run_spec ρ h e hl' hd
  exact ⟨r, e1, (Exact.wf_iff r).mpr w, d, v⟩

/-! ## grid landscapes -/

theorem gridwf_iff (p : Grid K) : p.wf = true ↔ p.WF := by
  simp only [Grid.wf, Bool.and_eq_true, Bool.not_eq_true', List.isEmpty_eq_false_iff, decide_eq_true_eq,
    List.all_eq_true, beq_iff_eq]
  constructor
  · rintro ⟨⟨⟨h1, h2⟩, h3⟩, h4⟩; exact ⟨h1, h2, h3, h4⟩
  · rintro ⟨h1, h2, h3, h4⟩; exact ⟨⟨⟨h1, h2⟩, h3⟩, h4⟩

/-- same degree and same grid, as the code compares them -/
abbrev sameGrid (p q : Grid K) : Prop :=
  p.homDeg = q.homDeg ∧ p.start = q.start ∧ p.stop = q.stop ∧ p.numSteps = q.numSteps

/-- **grid_add_pointwise**: on compatible grid landscapes `+` pads the shallower operand with zero
    rows and adds samplewise: every sample of every depth is the sum, a missing row counting as 0;
    the result lives on the same grid and has `max` many rows. -/
theorem grid_add_pointwise (p q : Grid K) (hp : p.wf = true) (hq : q.wf = true) (hc : sameGrid p q) :
    ∃ r, p.add q = .ok r ∧ r.wf = true ∧ sameGrid r p ∧ r.values.length = max p.values.length q.values.length ∧
      ∀ k j, valAt r.values k j = valAt p.values k j + valAt q.values k j := by
  obtain ⟨r, e, w, c, l, v⟩ := Grid.add_spec p q ((gridwf_iff p).mp hp) ((gridwf_iff q).mp hq) hc
  exact ⟨r, e, (gridwf_iff r).mpr w, c, l, v⟩

theorem grid_sub_pointwise (p q : Grid K) (hp : p.wf = true) (hq : q.wf = true) (hc : sameGrid p q) :
    ∃ r, p.sub q = .ok r ∧ r.wf = true ∧ sameGrid r p ∧ r.values.length = max p.values.length q.values.length ∧
      ∀ k j, valAt r.values k j = valAt p.values k j - valAt q.values k j := by
  obtain ⟨r, e, w, c, l, v⟩ := Grid.sub_spec p q ((gridwf_iff p).mp hp) ((gridwf_iff q).mp hq) hc
  exact ⟨r, e, (gridwf_iff r).mpr w, c, l, v⟩

theorem grid_neg_pointwise (p : Grid K) (hp : p.wf = true) :
    ∃ r, p.neg = .ok r ∧ r.wf = true ∧ sameGrid r p ∧ ∀ k j, valAt r.values k j = -valAt p.values k j := by
  obtain ⟨r, e, w, c, _, v⟩ := Grid.neg_spec p ((gridwf_iff p).mp hp)
  exact ⟨r, e, (gridwf_iff r).mpr w, c, v⟩

/-- **grid_smul_pointwise**: `*`, `rmul` by a number and `/` by a non-zero number are samplewise. -/
theorem grid_smul_pointwise (c : K) (p : Grid K) (hp : p.wf = true) :
    (∃ r, p.mul (.num c) = .ok r ∧ r.wf = true ∧ sameGrid r p ∧ ∀ k j, valAt r.values k j = c * valAt p.values k j) ∧
    (c ≠ 0 → ∃ r, p.div (.num c) = .ok r ∧ r.wf = true ∧ sameGrid r p ∧
      ∀ k j, valAt r.values k j = valAt p.values k j / c) := by
  constructor
  · obtain ⟨r, e, w, cm, _, v⟩ := Grid.smul_spec c p ((gridwf_iff p).mp hp)
    exact ⟨r, e, (gridwf_iff r).mpr w, cm, v⟩
  · intro hc
    obtain ⟨r, e, w, cm, _, v⟩ := Grid.sdiv_spec p c ((gridwf_iff p).mp hp) hc
    exact ⟨r, e, (gridwf_iff r).mpr w, cm, v⟩

/-- **grid_mismatch_rejected**: each mismatch is rejected with its own error, checked in the code's
    order (degree, start, stop, num_steps); zero divisors and non-numbers are rejected too. -/
theorem grid_mismatch_rejected (p q : Grid K) :
    (p.homDeg ≠ q.homDeg → p.add q = .error .homDeg) ∧
    (p.homDeg = q.homDeg → p.start ≠ q.start → p.add q = .error .start) ∧
    (p.homDeg = q.homDeg → p.start = q.start → p.stop ≠ q.stop → p.add q = .error .stop) ∧
    (p.homDeg = q.homDeg → p.start = q.start → p.stop = q.stop → p.numSteps ≠ q.numSteps →
      p.add q = .error .numSteps) ∧
    p.div (.num 0) = .error .divZero ∧ p.div .other = .error .typeError ∧ p.mul .other = .error .typeError := by
  refine ⟨fun h => by simp [Grid.add, h], fun h1 h2 => by simp [Grid.add, h1, h2],
    fun h1 h2 h3 => by simp [Grid.add, h1, h2, h3], fun h1 h2 h3 h4 => by simp [Grid.add, h1, h2, h3, h4],
    by simp [Grid.div, Grid.sdiv], rfl, rfl⟩

/-- the same for `-` (`self + -other`; the negation of a well-formed operand keeps its grid) -/
theorem grid_sub_mismatch_rejected (p q : Grid K) (hq : q.wf = true) :
    (p.homDeg ≠ q.homDeg → p.sub q = .error .homDeg) ∧
    (p.homDeg = q.homDeg → p.start ≠ q.start → p.sub q = .error .start) ∧
    (p.homDeg = q.homDeg → p.start = q.start → p.stop ≠ q.stop → p.sub q = .error .stop) ∧
    (p.homDeg = q.homDeg → p.start = q.start → p.stop = q.stop → p.numSteps ≠ q.numSteps →
      p.sub q = .error .numSteps) := by
  obtain ⟨nq, e, _, ⟨c1, c2, c3, c4⟩, _, _⟩ := Grid.neg_spec q ((gridwf_iff q).mp hq)
  have hs : p.sub q = p.add nq := by unfold Grid.sub; rw [e]; rfl
  rw [hs, ← c1, ← c2, ← c3, ← c4]
  obtain ⟨a, b, c, d, _⟩ := grid_mismatch_rejected p nq
  exact ⟨a, b, c, d⟩

/-- **grid_expr_denote**: every expression tree over shared, mutually compatible grid landscapes
    evaluates samplewise to the pointwise expression. -/
theorem grid_expr_denote (ρ : Nat → Grid K) (g0 : Grid K) (e : Expr K)
    (hl : e.leavesAll (fun i => (ρ i).wf = true ∧ sameGrid (ρ i) g0)) (hd : e.divisorsNonzero) :
    ∃ r, runG ρ e = .ok r ∧ r.wf = true ∧ sameGrid r g0 ∧ ∀ k j, valAt r.values k j = denoteG ρ e k j := by
  have hl' : e.leavesAll (fun i => (ρ i).WF ∧ Compat (ρ i) g0) := by
    clear hd
    induction e with
    | leaf i => exact ⟨(gridwf_iff _).mp hl.1, hl.2⟩
    | add e f ih1 ih2 => exact ⟨ih1 hl.1, ih2 hl.2⟩
    | sub e f ih1 ih2 => exact ⟨ih1 hl.1, ih2 hl.2⟩
    | neg e ih => exact ih hl
    | smul c e ih => exact ih hl
    | sdiv e c ih => exact ih hl
  obtain ⟨r, e1, w, c, v⟩ := runG_spec ρ g0 e hl' hd
  exact ⟨r, e1, (gridwf_iff r).mpr w, c, v⟩

/-! ## re-sampling, linear combinations, averages -/

/-- **snap_is_interp**: a landscape returned by `snap_pl` lives on the common grid, keeps its degree,
    and every depth is `np.interp` of that depth's samples at the nodes of the common grid. -/
theorem snap_is_interp (ls ps : List (Grid K)) (s? e? : Option K) (n? : Option Nat)
    (h : snapPl ls s? e? n? = .ok ps) :
    ∃ S E N, snapParams ls s? e? n? = .ok (S, E, N) ∧ ps.length = ls.length ∧
      ∀ i (hi : i < ls.length) (hj : i < ps.length),
        ps[i].homDeg = ls[i].homDeg ∧ ps[i].start = S ∧ ps[i].stop = E ∧ ps[i].numSteps = N ∧ ps[i].wf = true ∧
        ps[i].values = ls[i].values.map fun row => (linspace S E N).map fun x =>
          interp x ((linspace ls[i].start ls[i].stop ls[i].numSteps).zip row) := by
  obtain ⟨S, E, N, hp, hf⟩ := snapPl_ok ls s? e? n? ps h
  refine ⟨S, E, N, hp, hf.length_eq.symm, fun i hi hj => ?_⟩
  have := List.Forall₂.get hf hi hj
  simp only [List.get_eq_getElem] at this
  obtain ⟨a, b, c, d, v, w⟩ := snapOne_ok S E N _ _ this
  exact ⟨a, b, c, d, (gridwf_iff _).mpr w, v⟩

/-- the defaults of `snap_pl` on a non-empty list: explicit values win -/
theorem snap_defaults (p : Grid K) (r : List (Grid K)) (s e : K) (n : Nat) :
    snapParams (p :: r) (some s) (some e) (some n) = .ok (s, e, n) ∧
    snapParams (p :: r) none none none =
      .ok (minOf p.start (r.map (·.start)), maxOf p.stop (r.map (·.stop)),
           r.foldl (fun m q => if m < q.numSteps then q.numSteps else m) p.numSteps) ∧
    snapParams ([] : List (Grid K)) none (some e) (some n) = .error .emptyList := ⟨rfl, rfl, rfl⟩

/-- **snap_succeeds**: `snap_pl` succeeds on well-formed landscapes whenever the target grid has at
    least one node and `start ≤ stop` (the constructor's own check) … -/
theorem snap_succeeds (ls : List (Grid K)) (s? e? : Option K) (n? : Option Nat) (S E : K) (N : Nat)
    (hw : ∀ p ∈ ls, p.wf = true) (hp : snapParams ls s? e? n? = .ok (S, E, N)) (hN : 0 < N) (hSE : S ≤ E) :
    ∃ ps, snapPl ls s? e? n? = .ok ps := by
  refine ⟨ls.map fun p => ⟨p.homDeg, S, E, N, p.values.map fun row => (linspace S E N).map fun x =>
    interp x ((linspace p.start p.stop p.numSteps).zip row)⟩, ?_⟩
  unfold snapPl
  rw [hp]
  show ls.mapM (snapOne S E N) = _
  apply mapM_ok_of_forall
  intro p hpm
  have w := (gridwf_iff p).mp (hw p hpm)
  unfold snapOne
  exact Grid.mk'_ok _ _ _ _ _ (by simpa using w.ne) hN (by
    intro r hr
    obtain ⟨r', _, rfl⟩ := List.mem_map.mp hr
    simp [length_linspace]) hSE

/-- … which is always the case with the default parameters (smallest start, largest stop, largest
    num_steps) on a non-empty list of well-formed landscapes. -/
theorem snap_defaults_succeed (p : Grid K) (r : List (Grid K)) (hw : ∀ q ∈ p :: r, q.wf = true) :
    ∃ ps, snapPl (p :: r) none none none = .ok ps := by
  have w := (gridwf_iff p).mp (hw p (by simp))
  refine snap_succeeds (p :: r) none none none _ _ _ hw (snap_defaults p r 0 0 0).2.1 ?_ ?_
  · exact lt_of_lt_of_le w.pos (le_foldMax r _)
  · exact le_trans (minOf_le _ _) (le_trans w.le (le_maxOf _ _))

/-- **interp is linear interpolation with constant extension**: for strictly increasing nodes,
    left of the first node the first value, from the last node on the last value, in between the
    piecewise-linear interpolant `evalPL` of the nodes. -/
theorem interp_is_linear_interpolation (x : K) (p q : K × K) (r : List (K × K))
    (hs : ((p :: q :: r).map Prod.fst).Pairwise (· < ·)) :
    (x < p.1 → interp x (p :: q :: r) = p.2) ∧
    (∀ s, (p :: q :: r).getLast? = some s → s.1 ≤ x → interp x (p :: q :: r) = s.2) ∧
    (∀ s, (p :: q :: r).getLast? = some s → p.1 ≤ x → x ≤ s.1 → interp x (p :: q :: r) = evalPL (p :: q :: r) x) := by
  refine ⟨interp_left x p _, fun s hs' hx => ?_, fun s hs' hp hx => ?_⟩
  · have hle : ∀ y ∈ xs (p :: q :: r), y ≤ s.1 := chain_le_last _ s (chain_of_strict _ hs) hs'
    have hpx : p.1 ≤ x := le_trans (hle p.1 (by simp [xs])) hx
    rw [interp_cons, if_neg (not_lt.mpr hpx)]
    exact interpFrom_right x _ s hs' (fun y hy => le_trans (hle y.1 (List.mem_map_of_mem (f := Prod.fst) hy)) hx)
  · rw [interp_cons, if_neg (not_lt.mpr hp)]
    exact interpFrom_inside x p q r hs hp (fun s' hs2 => by rw [hs'] at hs2; cases hs2; exact hx)

/-- **lc_is_combination**: if re-sampling succeeds (`snap_pl` returns `ps`), the list is non-empty,
    has one coefficient per landscape and one homological degree, then `lc_approx` succeeds, lives
    on the common grid, and every sample of every depth is `Σ c_i · (snapped l_i)` — rows missing in
    a shallower landscape counting as 0. -/
theorem lc_is_combination (ls : List (Grid K)) (cs : List K) (s? e? : Option K) (n? : Option Nat) (ps : List (Grid K))
    (hs : snapPl ls s? e? n? = .ok ps) (hne : ls ≠ []) (hlen : cs.length = ls.length)
    (hdeg : ∀ p ∈ ls, ∀ q ∈ ls, p.homDeg = q.homDeg) :
    ∃ g, lcApprox ls (cs.map Scalar.num) s? e? n? = .ok g ∧ g.wf = true ∧ (∀ p ∈ ps, sameGrid g p) ∧
      ∀ k j, valAt g.values k j = (List.zipWith (fun c (p : Grid K) => c * valAt p.values k j) cs ps).sum := by
  obtain ⟨g, e, w, c, v⟩ := lcApprox_spec ls cs s? e? n? ps hs hne hlen hdeg
  exact ⟨g, e, (gridwf_iff g).mpr w, c, v⟩

/-- **average_is_lc**: `average_approx` is `lc_approx` with every coefficient `1/n`. -/
theorem average_is_lc (ls : List (Grid K)) (s? e? : Option K) (n? : Option Nat) :
    averageApprox ls s? e? n? =
      lcApprox ls ((List.replicate ls.length (1 / (ls.length : K))).map Scalar.num) s? e? n? := by
  unfold averageApprox
  congr 1
  rw [List.map_replicate]
  exact List.map_const' ..

/-- … hence every sample of the average is the mean of the re-sampled values. -/
theorem average_is_mean (ls : List (Grid K)) (s? e? : Option K) (n? : Option Nat) (ps : List (Grid K))
    (hs : snapPl ls s? e? n? = .ok ps) (hne : ls ≠ []) (hdeg : ∀ p ∈ ls, ∀ q ∈ ls, p.homDeg = q.homDeg) :
    ∃ g, averageApprox ls s? e? n? = .ok g ∧ g.wf = true ∧
      ∀ k j, valAt g.values k j = (ps.map fun p => valAt p.values k j).sum / (ls.length : K) := by
  rw [average_is_lc]
  obtain ⟨g, e, w, _, v⟩ := lc_is_combination ls (List.replicate ls.length (1 / (ls.length : K))) s? e? n? ps hs hne
    (by simp) hdeg
  refine ⟨g, e, w, fun k j => ?_⟩
  rw [v]
  have hlen : ls.length = ps.length := by
    obtain ⟨_, _, _, _, hf⟩ := snapPl_ok ls s? e? n? ps hs
    exact hf.length_eq
  rw [hlen]
  have : ∀ (c : K) (n : Nat) (qs : List (Grid K)), n = qs.length →
      (List.zipWith (fun c (p : Grid K) => c * valAt p.values k j) (List.replicate n c) qs).sum =
        c * (qs.map fun p => valAt p.values k j).sum := by
    intro c n qs
    induction qs generalizing n with
    | nil => intro h; simp [h]
    | cons q qs ih =>
      intro h; subst h
      simp only [List.length_cons, List.replicate_succ, List.zipWith_cons_cons, List.sum_cons, List.map_cons]
      rw [ih _ rfl]; ring
  rw [this _ _ ps rfl]
  ring

/-! ## non-vacuity: the hypotheses are met by concrete non-trivial inputs (at `ℚ`) -/

section Examples

/-- a tent, the depth a zero-length bar produces, and a sign-changing function -/
private def a : List (ℚ × ℚ) := [(0, 0), (2, 2), (4, 0)]
private def b : List (ℚ × ℚ) := [(1, 0), (1, 0), (1, 0)]
private def c : List (ℚ × ℚ) := [(1, 0), (2, -1), (3, 1), (4, 0)]

example : wfDepth a = true ∧ wfDepth b = true ∧ wfDepth c = true := by
  norm_num [a, b, c, wfDepth, chainOk]

/-- coincident abscissae (2, 4), interleaved ones (1, 3), a sign change -/
example : addDepth a c = [(0, 0), (1, 1), (2, 1), (3, 2), (4, 0)] := by
  norm_num [a, c, addDepth, posToSlope, sumSlopes, slopeToPos, slopeToPosAux]

/-- the zero-length-bar depth is the zero function: adding it changes nothing, adding two of them
    gives the single point `[[1,0]]` -/
example : addDepth b a = [(0, 0), (1, 1), (2, 2), (4, 0)] ∧ addDepth b b = [(1, 0)] := by
  norm_num [a, b, addDepth, posToSlope, sumSlopes, slopeToPos, slopeToPosAux]

/-- **regression witness for /repo 9ea345a**: on the depth list a zero-length bar produces — a
    well-formed representation of the zero function — the old `pos_to_slope_interp` divided 0/0
    (no slope list: ZeroDivisionError / NaN), so `P + Q` was not the pointwise sum; the current
    code skips the zero-width segments and returns exactly the other summand. -/
theorem old_posToSlope_counterexample :
    wfDepth ([(1, 0), (1, 0), (1, 0)] : List (ℚ × ℚ)) = true ∧
    posToSlopeOld ([(1, 0), (1, 0), (1, 0)] : List (ℚ × ℚ)) = none ∧
    addDepth ([(1, 0), (1, 0), (1, 0)] : List (ℚ × ℚ)) [(1, 0), (2, 1), (3, 0)] = [(1, 0), (2, 1), (3, 0)] := by
  norm_num [wfDepth, chainOk, posToSlopeOld, addDepth, posToSlope, sumSlopes, slopeToPos, slopeToPosAux]

/-- **nonzero_start_counterexample** (the known finding
    `persim/landscapes/auxiliary.py:slope-representation-starts-at-zero` as a theorem about the model of
    the current code): for the hand-made critical points `[(0,1),(2,1)]` — the constant 1 on `[0,2]`,
    first ordinate not 0, so outside the guard `wfDepth` — the merged-slope sum with the tent
    `[(0,0),(1,1),(2,0)]` is the tent itself: the offset is lost (at `t = 1` the result is `1`, the
    pointwise sum is `2`).  So the guard of `sum_eval` is necessary, and the part "arbitrary critical
    points" of C09's quantifier is violated by the code (listed in known_findings.txt). -/
theorem nonzero_start_counterexample :
    wfDepth ([(0, 1), (2, 1)] : List (ℚ × ℚ)) = false ∧
    wfDepth ([(0, 0), (1, 1), (2, 0)] : List (ℚ × ℚ)) = true ∧
    addDepth ([(0, 1), (2, 1)] : List (ℚ × ℚ)) [(0, 0), (1, 1), (2, 0)] = [(0, 0), (1, 1), (2, 0)] ∧
    evalPL (addDepth ([(0, 1), (2, 1)] : List (ℚ × ℚ)) [(0, 0), (1, 1), (2, 0)]) 1 = 1 ∧
    evalPL ([(0, 1), (2, 1)] : List (ℚ × ℚ)) 1 + evalPL ([(0, 0), (1, 1), (2, 0)] : List (ℚ × ℚ)) 1 = 2 := by
  norm_num [wfDepth, chainOk, addDepth, posToSlope, sumSlopes, slopeToPos, slopeToPosAux, evalPL]

/-- the same mechanism at the right end: a last ordinate that is not 0 (`[(0,0),(1,1)]` drops from 1 to
    0 right of `t = 1`) is continued with slope 0, so the sum with the tent `[(0,0),(2,2),(4,0)]` is
    `3` at `t = 2` instead of `2` — the zero LAST ordinate of `wfDepth` is necessary as well. -/
theorem nonzero_last_counterexample :
    wfDepth ([(0, 0), (1, 1)] : List (ℚ × ℚ)) = false ∧
    wfDepth ([(0, 0), (2, 2), (4, 0)] : List (ℚ × ℚ)) = true ∧
    addDepth ([(0, 0), (1, 1)] : List (ℚ × ℚ)) [(0, 0), (2, 2), (4, 0)] = [(0, 0), (1, 2), (2, 3), (4, 1)] ∧
    evalPL (addDepth ([(0, 0), (1, 1)] : List (ℚ × ℚ)) [(0, 0), (2, 2), (4, 0)]) 2 = 3 ∧
    evalPL ([(0, 0), (1, 1)] : List (ℚ × ℚ)) 2 + evalPL ([(0, 0), (2, 2), (4, 0)] : List (ℚ × ℚ)) 2 = 2 := by
  norm_num [wfDepth, chainOk, addDepth, posToSlope, sumSlopes, slopeToPos, slopeToPosAux, evalPL]

private def P : Exact ℚ := ⟨0, [a, [(1, 0), (2, 1), (3, 0)], b]⟩
private def Q : Exact ℚ := ⟨0, [c]⟩

example : P.wf = true ∧ Q.wf = true ∧ P.homDeg = Q.homDeg ∧ P.cps.length ≠ Q.cps.length := by
  norm_num [P, Q, a, b, c, Exact.wf, wfDepth, chainOk]

/-- an expression tree over shared operands meeting the hypotheses of `expr_denote` -/
example : let ρ : Nat → Exact ℚ := fun i => if i = 0 then P else Q
    let e : Expr ℚ := .sub (.smul 2 (.leaf 0)) (.sdiv (.add (.leaf 1) (.neg (.leaf 0))) 4)
    e.leavesAll (fun i => (ρ i).wf = true ∧ (ρ i).homDeg = 0) ∧ e.divisorsNonzero := by
  norm_num [Expr.leavesAll, Expr.divisorsNonzero, P, Q, a, b, c, Exact.wf, wfDepth, chainOk]

private def g1 : Grid ℚ := ⟨0, 0, 4, 5, [[0, 1, 2, 1, 0], [0, 0, 1, 0, 0]]⟩
private def g2 : Grid ℚ := ⟨0, 1, 4, 4, [[0, 2, 2, 0]]⟩
private def g3 : Grid ℚ := ⟨0, 0, 4, 5, [[0, -2, 0, 2, 0]]⟩

/-- two compatible grid landscapes of different depth counts; one on another grid -/
example : g1.wf = true ∧ g2.wf = true ∧ g3.wf = true ∧ sameGrid g1 g3 ∧ g1.values.length ≠ g3.values.length ∧
    g1.homDeg = g2.homDeg ∧ g1.start ≠ g2.start := by
  norm_num [g1, g2, g3, Grid.wf, sameGrid]

/-- `snap_pl` succeeds on landscapes with different grids (hypothesis of `lc_is_combination`,
    `average_is_mean`, `snap_is_interp`), with one coefficient each and one degree -/
example : snapPl [g1, g2] none none none =
    .ok [⟨0, 0, 4, 5, [[0, 1, 2, 1, 0], [0, 0, 1, 0, 0]]⟩, ⟨0, 0, 4, 5, [[0, 0, 2, 2, 0]]⟩] ∧
    ([3, -1/2] : List ℚ).length = [g1, g2].length ∧ (∀ p ∈ [g1, g2], ∀ q ∈ [g1, g2], p.homDeg = q.homDeg) := by
  norm_num [snapPl, snapParams, g1, g2, minOf, maxOf, snapOne, linspace, List.range, List.range.loop, interp,
    interpFrom, Grid.mk', bind, Except.bind, pure, Except.pure, List.mapM_cons, List.mapM_nil]

/-- strictly increasing nodes for `interp_is_linear_interpolation` -/
example : (([(1, 0), (2, 2), (3, 2), (4, 0)] : List (ℚ × ℚ)).map Prod.fst).Pairwise (· < ·) := by
  norm_num

end Examples

end PersimVerif.C09
